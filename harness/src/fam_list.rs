//! C17: `pna list` (plain, long, JSON lines, tree; patterns; --solid) vs `pna extract` vs the library.
use crate::cli::{self, read_logical, run_pna, snapshot, LEntry, LItem, Node, Sbx};
use crate::ctx::Ctx;
use crate::gen::{self, Cfg, Kind};
use crate::util::{hex, hexw, rng_for};
use libpna::*;
use rand::Rng;
use serde_json::json;

const NAMES: [&str; 19] = ["", "a.txt", "b b.txt", "dir/a.txt", "dir/ü n.bin", "dir/sub/d.txt", "e", "[x].txt", "st*r.dat", "q?.md", "dir/sub/deep/er/f", "日本/語.txt", "tab\tname", "dir2/only", "Z", "a.txt.bak", "dir/sub/e", "notes{1}.md", "dir/{x}"];
const PATTERNS: [&str; 20] = ["*.txt", "dir/*", "**/*.txt", "a.txt", "dir/sub/**", "nomatch*", "*", "dir/**", "e", "\\[x\\].txt", "?", "dir2/*",
    "{a.txt,e}", "dir/{a.txt,sub/d.txt}", "st\\*r.dat", "notes\\{1\\}.md", "dir/sub/{d.txt,e}", "{Z,dir2/only}", "dir/\\{x\\}", "q\\?.md"];

fn gen_archive(rng: &mut rand_chacha::ChaCha8Rng, cfg: &Cfg, allow_dups: bool) -> (Vec<u8>, serde_json::Value) {
    let n = rng.gen_range(0..7);
    let mut pool: Vec<&str> = NAMES.to_vec();
    let mut specs = vec![];
    for _ in 0..n {
        let mut e = gen::gen_entry(rng, 50);
        let k = rng.gen_range(0..pool.len());
        e.name = if allow_dups && rng.gen_bool(0.15) { pool[k].to_string() } else { pool.remove(k).to_string() };
        if e.kind == Kind::Hardlink || e.kind == Kind::Symlink { e.link = ["a.txt", "../up", "dir/a.txt"][rng.gen_range(0..3)].into(); }
        // link targets beyond 1 KiB (a Linux symlink may hold up to 4095 bytes), with a multi-byte character across the 1024th byte
        if e.kind == Kind::Symlink && rng.gen_bool(0.3) { e.link = format!("{}ü{}", "seg/".repeat(255), "/tail".repeat(90)); }
        specs.push(e);
    }
    // every third archive certainly holds a symbolic link whose target is longer than 1 KiB
    if rng.gen_bool(0.34) {
        let mut e = gen::gen_entry(rng, 0);
        e.kind = Kind::Symlink; e.content = vec![]; e.writes = vec![]; e.name = "dir2/long-link".into();
        e.link = format!("{}ü{}", "seg/".repeat(255), "/tail".repeat(90));
        let at = rng.gen_range(0..=specs.len());
        specs.insert(at, e);
    }
    let mut a = Archive::write_header(Vec::new()).unwrap();
    let mut i = 0;
    let mut layout = vec![];
    while i < specs.len() {
        // an empty solid block (what `delete --keep-solid` of a block's only entry leaves behind) in front of further entries
        if rng.gen_bool(0.15) {
            a.add_entry(SolidEntryBuilder::new(cfg.options()).unwrap().build().unwrap()).unwrap();
            layout.push("solid0".into());
        }
        if rng.gen_bool(0.3) {
            let k = rng.gen_range(1..=(specs.len() - i).min(3));
            let mut sb = SolidEntryBuilder::new(cfg.options()).unwrap();
            for e in &specs[i..i + k] { sb.add_entry(e.build(&Cfg::plain()).unwrap()).unwrap(); }
            a.add_entry(sb.build().unwrap()).unwrap();
            layout.push(format!("solid{k}"));
            i += k;
        } else {
            a.add_entry(specs[i].build(cfg).unwrap()).unwrap();
            layout.push("normal".into());
            i += 1;
        }
    }
    (a.finalize().unwrap(), json!({"layout": layout, "cfg": cfg.describe(), "entries": specs.iter().map(|e| e.to_json()).collect::<Vec<_>>()}))
}

fn strip_ansi(s: &str) -> String {
    let mut out = String::new();
    let mut it = s.chars().peekable();
    while let Some(c) = it.next() {
        if c == '\x1b' {
            if it.peek() == Some(&'[') { it.next(); while let Some(d) = it.next() { if d.is_ascii_alphabetic() { break; } } }
        } else { out.push(c); }
    }
    out
}

pub fn list(ctx: &mut Ctx) {
    let mut rng = rng_for(ctx.seed, "list");
    ctx.rule = "archives with 0-6 entries (names with spaces, unicode, tab, glob metacharacters, deep paths, occasional duplicates; files/dirs/symlinks/hardlinks; normal, solid and mixed; plain or encrypted) \
                x formats {plain, plain --classify, -l, jsonl, tree, tree --classify} x {--solid, not} x generated glob pattern sets (none, matching none/some/all); stdout compared byte for byte with the model (plain, tree), \
                field-wise (jsonl), row-wise (long); `pna extract` with the same patterns compared with the listed set; library iteration in-process; non-trivial = archive has an entry; distinct by request line".into();
    let n = if ctx.thorough { 600 } else { 45 };
    for case in 0..n {
        let mut cfg = gen::gen_cfg(&mut rng, false);
        if case % 3 != 0 { cfg.enc = 0; }
        let pw = if cfg.enc != 0 { Some(cfg.password.clone()) } else { None };
        let (bytes, desc) = gen_archive(&mut rng, &cfg, case % 5 == 4);
        let sbx = Sbx::new("list", case);
        std::fs::write(sbx.path("a.pna"), &bytes).unwrap();
        let items = match read_logical(&[bytes.clone()], pw.as_deref()) { Ok(v) => v, Err(e) => { ctx.notes.push(format!("generated archive unreadable: {e}")); continue; } };
        // rows in archive order with solid flag
        let mut rows: Vec<(bool, LEntry)> = vec![];
        for it in &items { match it { LItem::Normal(e) => rows.push((false, e.clone())), LItem::Solid { entries, .. } => for e in entries { rows.push((true, e.clone())) } } }
        let has_solid = rows.iter().any(|r| r.0);
        let row_wire = |rows: &[(bool, LEntry)]| -> String {
            if rows.is_empty() { return ".".into(); }
            rows.iter().map(|(s, e)| {
                let target = if e.kind >= 2 { e.content.clone().unwrap_or_default() } else { vec![] };
                let csize: usize = e.stored_len;
                format!("{},{},{},{},{},{}", *s as u8, hexw(e.name.as_bytes()), e.kind, hexw(&target), e.raw_size.map(|x| x.to_string()).unwrap_or("-".into()), csize)
            }).collect::<Vec<_>>().join(";")
        };
        let wire = row_wire(&rows);
        for round in 0..3 {
            let solid_flag = rng.gen_bool(0.6);
            let npat = [0usize, 0, 1, 2][rng.gen_range(0..4)];
            let names: Vec<String> = rows.iter().map(|r| r.1.name.clone()).collect();
            // the first round of every archive uses an alternation of two names that ARE in the archive (plain names where there
            // are any), the second a backslash-escaped literal of one: patterns that select something, and that a "literal name"
            // short cut would misread
            let plain: Vec<&String> = names.iter().filter(|n| !n.is_empty() && !n.contains(['*', '?', '[', ']', '{', '}', '\\', '\t', '\n', ','])).collect();
            let forced: Option<String> = match (round, plain.len()) {
                (0, k) if k >= 1 => Some(format!("{{{},{}}}", plain[0], plain[k - 1])),
                // a literal with one needlessly escaped character: `a\.txt` names the same entry as `a.txt`
                (1, k) if k >= 1 => Some(plain[k / 2].replacen('.', "\\.", 1)),
                _ => None,
            };
            let forced_escaped: Option<String> = if round == 1 { names.iter().find(|n| n.contains(['*', '?', '{', '['])).map(|n| n.chars().map(|c| if "*?{}[]".contains(c) { format!("\\{c}") } else { c.to_string() }).collect()) } else { None };
            let forced = forced_escaped.or(forced);
            let pats: Vec<&str> = match &forced { Some(f) if round < 2 => vec![f.as_str()], _ => (0..npat).map(|_| PATTERNS[rng.gen_range(0..PATTERNS.len())]).collect() };
            let sel: Option<Vec<String>> = if pats.is_empty() { None } else {
                let mut b = globset::GlobSet::builder();
                for p in &pats { b.add(globset::Glob::new(p).unwrap()); }
                let gs = b.build().unwrap();
                Some(names.iter().filter(|n| gs.is_match(std::path::Path::new(n.as_str()))).cloned().collect())
            };
            let sel_wire = match &sel { None => "*".to_string(), Some(v) => if v.is_empty() { ".".into() } else { v.iter().map(|n| hexw(n.as_bytes())).collect::<Vec<_>>().join(",") } };
            let (fmt, classify, extra): (&str, bool, Vec<&str>) = match rng.gen_range(0..6) {
                0 => ("plain", false, vec![]),
                1 => ("plain", true, vec!["--classify"]),
                2 => ("jsonl", false, vec!["--unstable", "--format", "jsonl"]),
                3 => ("tree", false, vec!["--unstable", "--format", "tree"]),
                4 => ("tree", true, vec!["--unstable", "--format", "tree", "--classify"]),
                _ => ("long", false, vec!["-l"]),
            };
            let mut args: Vec<String> = vec!["list".into()];
            for e in &extra { args.push(e.to_string()); }
            if solid_flag { args.push("--solid".into()); }
            if let Some(p) = &pw { args.push(format!("--password={p}")); }
            args.push("a.pna".into());
            for p in &pats { args.push(p.to_string()); }
            let argv: Vec<&str> = args.iter().map(|s| s.as_str()).collect();
            let attrs = json!({"archive": desc, "argv": args, "format": fmt});
            ctx.count(&format!("fmt:{fmt}"));
            ctx.count(if solid_flag { "solid:on" } else { "solid:off" });
            let r = run_pna(&sbx, &sbx.root, &argv, None, 60, &[]);
            ctx.oracle_eval();
            if r.crashed() || r.hung() { ctx.violation("C07", "`pna list` crashed or hung", json!({"case":attrs,"run":r.brief()})); continue; }
            if !r.ok() { ctx.violation("C17", "`pna list` failed on a valid archive", json!({"case":attrs,"run":r.brief()})); continue; }
            // expected rows by the property itself (independent of the model)
            let shown: Vec<&(bool, LEntry)> = rows.iter().filter(|(s, e)| (!*s || solid_flag) && sel.as_ref().map(|v| v.contains(&e.name)).unwrap_or(true)).collect();
            match fmt {
                "plain" | "tree" => {
                    ctx.case(json!({"fmt":fmt,"rows":rows.len()}), format!("list {fmt} {} {} {sel_wire} {wire}", solid_flag as u8, classify as u8), format!("ok {}", hexw(&r.stdout)), !rows.is_empty());
                    if fmt == "tree" && shown.iter().all(|(_, e)| !e.name.contains('\n')) {
                        // every shown entry appears in the tree (independent of the model's rendering)
                        let text = String::from_utf8_lossy(&r.stdout).to_string();
                        let lines: Vec<String> = text.lines().map(|l| l.trim_end_matches(['/', '@', '*']).to_string()).collect();
                        for (_, e) in &shown {
                            let base = e.name.rsplit('/').next().unwrap_or("");
                            if !base.is_empty() && !lines.iter().any(|l| l.ends_with(base)) {
                                ctx.violation("C17", "an entry reported by the library (and selected by the patterns) is missing from the tree listing", json!({"case":attrs,"entry":e.name,"kind":e.kind}));
                            }
                        }
                    }
                    if fmt == "plain" {
                        let text = String::from_utf8_lossy(&r.stdout).to_string();
                        let lines: Vec<&str> = text.split('\n').filter(|l| !l.is_empty()).collect();
                        let names_listed: Vec<String> = lines.iter().map(|l| l.split(" -> ").next().unwrap().trim_end_matches(['/', '@']).to_string()).collect();
                        let want: Vec<String> = shown.iter().map(|(_, e)| e.name.clone()).collect();
                        if !want.iter().any(|n| n.contains('\n') || n.is_empty()) && names_listed != want && !classify {
                            ctx.violation("C17", "plain listing differs from the library's entries (filtered by the same patterns)", json!({"case":attrs,"listed":names_listed,"library":want}));
                        }
                    }
                }
                "jsonl" => {
                    let mut proj = vec![];
                    let mut bad = false;
                    for line in String::from_utf8_lossy(&r.stdout).lines() {
                        match serde_json::from_str::<serde_json::Value>(line) {
                            Ok(v) => proj.push(format!("{}|{}|{}|{}", hexw(v["filename"].as_str().unwrap_or("").as_bytes()), hex(&[v["permissions"].as_str().unwrap_or(" ").as_bytes()[0]]), v["raw_size"], v["size"])),
                            Err(_) => bad = true,
                        }
                    }
                    if bad { ctx.violation("C17", "JSON-lines listing is not valid JSON", json!({"case":attrs})); }
                    let imp = if rows.iter().all(|(s, _)| *s && !solid_flag) || rows.is_empty() { "ok -".to_string() } else if proj.is_empty() { "ok .".into() } else { format!("ok {}", proj.join(";")) };
                    ctx.case(json!({"fmt":fmt,"rows":rows.len()}), format!("list jsonl {} 0 {sel_wire} {wire}", solid_flag as u8), imp, !rows.is_empty());
                    let want: Vec<(String, u128)> = shown.iter().map(|(_, e)| (e.name.clone(), e.raw_size.unwrap_or(0))).collect();
                    let got: Vec<(String, u128)> = String::from_utf8_lossy(&r.stdout).lines().filter_map(|l| serde_json::from_str::<serde_json::Value>(l).ok()).map(|v| (v["filename"].as_str().unwrap_or("").to_string(), v["raw_size"].as_u64().unwrap_or(0) as u128)).collect();
                    if got != want { ctx.violation("C17", "JSON-lines listing differs from the library's entries (names / raw sizes)", json!({"case":attrs,"listed":got.len(),"library":want.len()})); }
                }
                _ => {
                    // long: one table row per entry, the row ends with the name (and link target)
                    let text = strip_ansi(&String::from_utf8_lossy(&r.stdout));
                    let lines: Vec<&str> = text.lines().filter(|l| !l.trim().is_empty()).collect();
                    let simple = shown.iter().all(|(_, e)| !e.name.contains('\n') && !e.name.contains('\t') && !e.name.is_empty());
                    if simple {
                        if lines.len() != shown.len() {
                            ctx.violation("C17", "long listing has a different number of rows than the library has entries", json!({"case":attrs,"rows":lines.len(),"library":shown.len()}));
                        } else {
                            for (l, (_, e)) in lines.iter().zip(shown.iter()) {
                                let tail = if e.kind >= 2 { format!("{} -> {}", e.name, String::from_utf8_lossy(e.content.as_deref().unwrap_or(&[]))) } else { e.name.clone() };
                                if !l.trim_end().ends_with(&tail) { ctx.violation("C17", "long listing row does not show the entry's name / link target", json!({"case":attrs,"row":l,"want":tail})); }
                                let kc = match e.kind { 1 => 'd', 2 => 'l', _ => '.' };
                                if !l.contains(&format!(" {kc}")) && !l.trim_start().contains(kc) { ctx.violation("C17", "long listing row shows the wrong kind", json!({"case":attrs,"row":l})); }
                            }
                        }
                    }
                }
            }
            // without --solid: omits exactly the entries in solid blocks
            if !solid_flag && has_solid && fmt == "plain" && sel.is_none() {
                let text = String::from_utf8_lossy(&r.stdout).to_string();
                let cnt = text.split('\n').filter(|l| !l.is_empty()).count();
                let normal = rows.iter().filter(|r| !r.0).count();
                if cnt != normal && !rows.iter().any(|r| r.1.name.contains('\n') || r.1.name.is_empty()) { ctx.violation("C17", "without --solid the listing does not omit exactly the entries held in solid blocks", json!({"case":attrs,"listed":cnt,"normal_entries":normal})); }
            }
            // ---- extract with the same patterns produces the same set
            if round == 0 {
                let out = sbx.path("out");
                let _ = std::fs::remove_dir_all(&out);
                let mut xa: Vec<String> = vec!["--quiet".into(), "extract".into(), "--overwrite".into(), "--out-dir".into(), "out".into()];
                if let Some(p) = &pw { xa.push(format!("--password={p}")); }
                xa.push("a.pna".into());
                for p in &pats { xa.push(p.to_string()); }
                let xv: Vec<&str> = xa.iter().map(|s| s.as_str()).collect();
                let xr = run_pna(&sbx, &sbx.root, &xv, None, 60, &[]);
                if xr.crashed() || xr.hung() { ctx.violation("C07", "`pna extract` crashed or hung", json!({"case":attrs,"run":xr.brief()})); }
                else {
                    let snap = snapshot(&out);
                    // extract expands solid entries always
                    let sel_all: Vec<&LEntry> = rows.iter().map(|r| &r.1).filter(|e| sel.as_ref().map(|v| v.contains(&e.name)).unwrap_or(true)).collect();
                    fn hardlink_ok(e: &&&LEntry) -> bool { e.kind != 3 }
                    // a successful run has created every selected hard link as well (a link whose source is missing or not
                    // selected makes the run fail, and then nothing is compared)
                    let mut want_paths: std::collections::BTreeSet<String> = Default::default();
                    for e in sel_all.iter() { if !e.name.is_empty() { want_paths.insert(e.name.clone()); } }
                    let dup = { let mut v: Vec<&String> = sel_all.iter().map(|e| &e.name).collect(); v.sort(); let l = v.len(); v.dedup(); v.len() != l };
                    let prefix_conflict = sel_all.iter().any(|a| sel_all.iter().any(|b| b.name.starts_with(&format!("{}/", a.name)) && a.kind != 1));
                    if xr.ok() && !dup && !prefix_conflict {
                        let leafs: std::collections::BTreeSet<String> = snap.iter().filter(|(p, n)| !matches!(n, Node::Dir { .. }) || want_paths.contains(*p)).map(|(p, _)| p.clone()).collect();
                        if leafs != want_paths {
                            ctx.violation("C17", "files produced by `pna extract` differ from the entries selected by the same patterns", json!({"case":attrs,"extracted":leafs,"selected":want_paths}));
                        }
                        for e in sel_all.iter().filter(hardlink_ok) {
                            match (snap.get(&e.name), e.kind) {
                                (Some(Node::File { content, .. }), 0) => { if Some(content) != e.content.as_ref() { ctx.violation("C17", "extracted file content differs from the library's", json!({"case":attrs,"entry":e.name})); } }
                                (Some(Node::Dir { .. }), 1) => {}
                                (Some(Node::Symlink { target }), 2) => { if Some(target.as_bytes()) != e.content.as_deref() { ctx.violation("C17", "extracted link target differs from the library's", json!({"case":attrs,"entry":e.name})); } }
                                (None, _) if e.name.is_empty() => {}
                                (other, k) => ctx.violation("C17", "extracted object has a different kind than the entry", json!({"case":attrs,"entry":e.name,"kind":k,"found":format!("{:?}", other.map(|_| "other"))})),
                            }
                        }
                    } else if !xr.ok() && !dup && !prefix_conflict && sel_all.iter().all(|e| e.kind != 3 && !e.name.is_empty()) {
                        ctx.violation("C17", "`pna extract` failed on a valid archive", json!({"case":attrs,"run":xr.brief()}));
                    }
                }
            }
        }
        let _ = cli::pna_bin();
    }
}
