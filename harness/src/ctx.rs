use serde_json::{json, Value};
use std::collections::{BTreeMap, HashSet};
use std::io::Write;
use std::process::{Command, Stdio};

pub struct Case {
    pub attrs: Value,
    pub req: String,
    pub imp: String,
    pub nontrivial: bool,
}

pub struct Ctx {
    pub family: String,
    pub seed: u64,
    pub thorough: bool,
    pub driver: String,
    pub cases: Vec<Case>,
    pub violations: Vec<Value>,
    pub counters: BTreeMap<String, u64>,
    pub rule: String,
    pub notes: Vec<String>,
    pub impl_only: u64,
    pub free_cases: u64,
}

impl Ctx {
    pub fn new(family: &str, seed: u64, thorough: bool, driver: &str) -> Self {
        Ctx {
            family: family.into(),
            seed,
            thorough,
            driver: driver.into(),
            cases: vec![],
            violations: vec![],
            counters: BTreeMap::new(),
            rule: String::new(),
            notes: vec![],
            impl_only: 0,
            free_cases: 0,
        }
    }

    pub fn count(&mut self, key: &str) {
        *self.counters.entry(key.to_string()).or_insert(0) += 1;
    }

    /// A correspondence case: the model is asked `req`, the implementation answered `imp`.
    pub fn case(&mut self, attrs: Value, req: String, imp: String, nontrivial: bool) {
        debug_assert!(!req.contains('\n'));
        // C07 oracle, applied uniformly: a decoder-side operation that panics or never ends on some
        // bytes is a violation whatever the model says.
        let op = req.split(' ').next().unwrap_or("");
        let decoder = op.ends_with(".dec") || op.starts_with("chunk.dec") || op.starts_with("chunks.") || op.starts_with("archive.")
            || matches!(op, "multipart.read" | "entry.parse" | "entry.open" | "entry.reser" | "entry.reser2" | "solid.iter" | "flatr" | "cbcr" | "ctrr" | "utf8" | "name.sanitize" | "ref.normalize" | "fhed.reenc" | "shed.reenc");
        if decoder && (imp.starts_with("panic") || imp.contains(" end=panic") || imp.contains("end=hang")) {
            let what = if imp.contains("end=hang") { "a reader does not terminate on these bytes" } else { "a reader panicked on these bytes" };
            self.violations.push(json!({"property": "C07", "what": what, "attrs": {"req": req.chars().take(4000).collect::<String>(), "impl": imp.chars().take(400).collect::<String>()}, "family": self.family}));
        }
        self.cases.push(Case { attrs, req, imp, nontrivial });
    }

    /// An implementation-level property failure (oracle), independent of the model.
    pub fn violation(&mut self, property: &str, what: &str, attrs: Value) {
        self.violations.push(json!({"property": property, "what": what, "attrs": attrs, "family": self.family}));
    }

    /// A case explored by an implementation-only family (counts towards distinct_nontrivial by its attrs).
    pub fn case_free(&mut self) {
        self.free_cases += 1;
    }

    /// Count an implementation-only oracle evaluation (no model request).
    pub fn oracle_eval(&mut self) {
        self.impl_only += 1;
    }

    pub fn finish(self) -> Value {
        // run the driver in batch mode
        let mut model: Vec<String> = Vec::new();
        let mut driver_err: Option<String> = None;
        if !self.cases.is_empty() {
            let mut input = String::new();
            for c in &self.cases {
                input.push_str(&c.req);
                input.push('\n');
            }
            match Command::new(&self.driver)
                .stdin(Stdio::piped())
                .stdout(Stdio::piped())
                .stderr(Stdio::piped())
                .spawn()
            {
                Ok(mut child) => {
                    let mut stdin = child.stdin.take().unwrap();
                    let h = std::thread::spawn(move || {
                        let _ = stdin.write_all(input.as_bytes());
                    });
                    let out = child.wait_with_output().unwrap();
                    let _ = h.join();
                    if !out.status.success() {
                        driver_err = Some(format!(
                            "driver exited with {:?}: {}",
                            out.status.code(),
                            String::from_utf8_lossy(&out.stderr)
                        ));
                    }
                    model = String::from_utf8_lossy(&out.stdout)
                        .lines()
                        .map(|s| s.to_string())
                        .collect();
                }
                Err(e) => driver_err = Some(format!("cannot start driver {}: {e}", self.driver)),
            }
        }
        let mut disagreements = vec![];
        let mut distinct: HashSet<u64> = HashSet::new();
        let mut model_answers: BTreeMap<String, u64> = BTreeMap::new();
        for (i, c) in self.cases.iter().enumerate() {
            let m = model.get(i).cloned().unwrap_or_else(|| "<no answer>".into());
            let key = if m.starts_with("ok") {
                "ok".to_string()
            } else if m.starts_with("err") || m.starts_with("panic") || m.starts_with("bad-op") {
                m.split(' ').take(2).collect::<Vec<_>>().join(" ").chars().take(40).collect()
            } else if let Some(t) = m.split(' ').find(|t| t.starts_with("end=")) {
                t.to_string()
            } else {
                m.split(' ').last().unwrap_or("").chars().take(24).collect()
            };
            *model_answers.entry(key).or_insert(0) += 1;
            if c.nontrivial {
                distinct.insert(crate::util::fnv(&c.req));
            }
            if m != c.imp {
                if disagreements.len() < 8 {
                    // the first few in full, so that a disagreement can be replayed exactly
                    disagreements.push(json!({"idx": i, "req": c.req, "impl": c.imp, "model": m, "attrs": c.attrs}));
                } else if disagreements.len() < 50 {
                    disagreements.push(json!({"idx": i, "req": trunc(&c.req), "impl": trunc(&c.imp), "model": trunc(&m), "attrs": c.attrs}));
                }
            }
        }
        let n_dis = self
            .cases
            .iter()
            .enumerate()
            .filter(|(i, c)| model.get(*i).map(|m| m != &c.imp).unwrap_or(true))
            .count();
        let samples: Vec<Value> = self
            .cases
            .iter()
            .enumerate()
            .filter(|(i, _)| *i % (self.cases.len() / 3 + 1) == 0)
            .take(4)
            .map(|(i, c)| json!({"req": trunc(&c.req), "impl": trunc(&c.imp), "model": model.get(i).map(|s| trunc(s)), "attrs": c.attrs}))
            .collect();
        json!({
            "family": self.family,
            "seed": self.seed,
            "tier": if self.thorough {"thorough"} else {"quick"},
            "evaluations": self.cases.len() as u64 + self.impl_only,
            "model_requests": self.cases.len(),
            "distinct_nontrivial": distinct.len() as u64 + self.free_cases,
            "rule": self.rule,
            "n_disagreements": n_dis,
            "disagreements": disagreements,
            "violations": self.violations.iter().take(50).collect::<Vec<_>>(),
            "n_violations": self.violations.len(),
            "distribution": self.counters,
            "model_answer_kinds": model_answers,
            "samples": samples,
            "driver_error": driver_err,
            "notes": self.notes,
        })
    }
}

fn trunc(s: &str) -> String {
    if s.len() > 600 {
        format!("{}…[{} chars]", &s[..600], s.len())
    } else {
        s.to_string()
    }
}
