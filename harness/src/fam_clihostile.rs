//! `cli-hostile` family (C07 at the CLI): every command that takes an archive as input, run on
//! hostile archives — CRC-valid chunk streams with adversarial payloads, valid archives with single
//! fields replaced by hostile values, chunks duplicated / dropped / reordered / inserted, truncated
//! and bit-flipped files, multipart sequences with wrong numbers or missing parts — with and
//! without a password.  A command may fail; it may not panic (exit 101), die on a signal, or run
//! past the time limit.
use crate::cli::{run_pna, Sbx};
use crate::ctx::Ctx;
use crate::fam_frame::{hostile_payload_pub as hostile_payload, hostile_stream};
use crate::gen::{self, frame};
use crate::refdec;
use crate::util::{bytes, hex, rng_for};
use rand::Rng;
use serde_json::json;

fn rebuild(chunks: &[([u8; 4], Vec<u8>)]) -> Vec<u8> {
    let mut v = gen::SIG.to_vec();
    for (t, d) in chunks {
        v.extend(frame(t, d));
    }
    v
}

fn special_entries(rng: &mut impl Rng) -> Vec<u8> {
    // hand-framed archive with metadata at the edges of every consumer
    let mut v = gen::SIG.to_vec();
    v.extend(frame(b"AHED", &[0; 8]));
    let fhed = |kind: u8, name: &[u8]| {
        let mut p = vec![0, 0, kind, 0, 0, 0];
        p.extend_from_slice(name);
        p
    };
    let long = vec![b'n'; 300];
    let deep: Vec<u8> = std::iter::repeat(b"d/".iter().copied()).take(400).flatten().chain(*b"f").collect();
    let names: Vec<Vec<u8>> = vec![
        b"".to_vec(),
        b"/".to_vec(),
        b"a\nb".to_vec(),
        b"a\x1b[31mred".to_vec(),
        b"a\tb\\c\"d".to_vec(),
        "ü/日本/\u{202e}rtl".as_bytes().to_vec(),
        long.clone(),
        deep,
        b"dup".to_vec(),
        b"dup".to_vec(),
        b"dir".to_vec(),
        b"dir/child".to_vec(),
        b"-leading-dash".to_vec(),
        b"*?[glob]".to_vec(),
    ];
    // links whose recorded size is enormous (sizes from the archive must not be used for allocation)
    for (k, (kind, size)) in [(2u8, 1u128 << 63), (3, 1 << 46), (2, u128::MAX), (0, 1 << 62)].iter().enumerate() {
        v.extend(frame(b"FHED", &fhed(*kind, format!("big{k}").as_bytes())));
        let be = size.to_be_bytes();
        let first = be.iter().position(|b| *b != 0).unwrap_or(15);
        v.extend(frame(b"fSIZ", &be[first..]));
        v.extend(frame(b"FDAT", b"t"));
        v.extend(frame(b"FEND", &[]));
    }
    for (i, n) in names.iter().enumerate() {
        let kind = [0u8, 0, 1, 2, 3][rng.gen_range(0..5)];
        v.extend(frame(b"FHED", &fhed(kind, n)));
        if rng.gen_bool(0.5) {
            v.extend(frame([b"cTIM", b"mTIM", b"aTIM"][i % 3], &[[0xffu8; 8], [0x7f; 8], [0, 0, 0, 0, 0, 0, 0, 0]][rng.gen_range(0..3)]));
        }
        if rng.gen_bool(0.4) {
            let mut p = vec![];
            p.extend_from_slice(&u64::MAX.to_be_bytes());
            p.push(255);
            p.extend(vec![b'u'; 255]);
            p.extend_from_slice(&u64::MAX.to_be_bytes());
            p.push(0);
            p.extend_from_slice(&[0xff, 0xff]);
            v.extend(frame(b"fPRM", &p));
        }
        if rng.gen_bool(0.4) {
            let name: &[u8] = [&b"user.a"[..], b"", b"a\nb", b"security.selinux", "ü".as_bytes()][rng.gen_range(0..5)];
            let mut p = (name.len() as u32).to_be_bytes().to_vec();
            p.extend_from_slice(name);
            let val = bytes(rng, 5);
            p.extend_from_slice(&(val.len() as u32).to_be_bytes());
            p.extend(val);
            v.extend(frame(b"xATR", &p));
        }
        if rng.gen_bool(0.4) {
            let ace: &[u8] = [&b"linux:d:u:alice:allow:r,w"[..], b":::::", b"x", b"windows:inherited:g::deny:chown", &[0xff, 0xfe][..], b"macos:a:b:c:d:e:f:g"][rng.gen_range(0..6)];
            v.extend(frame(b"faCe", ace));
        }
        if rng.gen_bool(0.3) {
            let k = [0usize, 1, 16, 17][rng.gen_range(0..4)];
            v.extend(frame(b"fSIZ", &bytes(rng, k)));
        }
        match kind {
            0 => v.extend(frame(b"FDAT", &bytes(rng, 10))),
            2 | 3 => {
                let t: &[u8] = [&b"target"[..], b"", b"../../x", b"/abs", &[0xff, 0xfe][..], b"dup", b"a\nb"][rng.gen_range(0..7)];
                if rng.gen_bool(0.8) {
                    v.extend(frame(b"FDAT", t));
                }
            }
            _ => {}
        }
        v.extend(frame(b"FEND", &[]));
    }
    v.extend(frame(b"AEND", &[]));
    v
}

pub fn cli_hostile(ctx: &mut Ctx) {
    let mut rng = rng_for(ctx.seed, "cli-hostile");
    ctx.rule = "archives: {hostile CRC-valid chunk streams; valid archives (all writer kinds, codecs, ciphers) with 1-3 chunk payloads replaced by hostile values for their type, or chunks duplicated / removed / swapped / foreign chunks inserted; truncations; raw bit flips; hand-framed entries with edge metadata (empty, control-character, 300-byte, 400-deep and duplicate names, extreme times, ids, xattr names, ACE bodies, link targets); multipart pairs with wrong numbers / missing parts} \
                x commands {list (plain, -l, --format jsonl, --format tree, --solid), extract (plain, keep flags), experimental chunk list, split, concat, strip, experimental chmod / chown / xattr get / xattr set / acl get / acl set / delete / migrate / update, append} x {no password, --password}; \
                oracle: exit status is neither a panic (101) nor a signal, and the command ends within 20 s".into();
    // an archive with many entries (nothing hostile about it, but counts beyond any internal queue or batch size): every entry
    // comes out, the command ends
    {
        use libpna::{Archive, EntryBuilder, EntryName, WriteOptions};
        use std::io::Write;
        let sbx = Sbx::new("hostile-many", 0);
        let count = 2600usize;
        let mut a = Archive::write_header(Vec::new()).unwrap();
        for i in 0..count {
            let e = if i % 7 == 3 { EntryBuilder::new_dir(EntryName::from(format!("m/d{i:04}").as_str())).build().unwrap() } else {
                let mut b = EntryBuilder::new_file(EntryName::from(format!("m/f{i:04}").as_str()), WriteOptions::store()).unwrap();
                b.write_all(&[(i % 251) as u8; 3]).unwrap();
                b.build().unwrap()
            };
            a.add_entry(e).unwrap();
        }
        std::fs::write(sbx.path("many.pna"), a.finalize().unwrap()).unwrap();
        for (k, args) in [vec!["--quiet", "extract", "many.pna", "--out-dir", "o"], vec!["list", "many.pna"]].iter().enumerate() {
            let r = run_pna(&sbx, &sbx.root, args, if k == 0 { None } else { None }, 60, &[]);
            ctx.oracle_eval();
            ctx.count("archive:many-entries");
            let attrs = json!({"entries":count,"argv":args,"run":r.brief()});
            if r.crashed() || r.hung() { ctx.violation("C07", "a command panicked, was killed by a signal or did not end on an archive with many entries", attrs); continue; }
            let got = if k == 0 { std::fs::read_dir(sbx.path("o/m")).map(|d| d.count()).unwrap_or(0) } else { String::from_utf8_lossy(&r.stdout).lines().count() };
            if !r.ok() || got != count { ctx.violation("C17", "list / extract of an archive with many entries does not give every entry", json!({"entries":count,"got":got,"argv":args,"run":r.brief()})); }
        }
        ctx.case_free();
    }
    let n = if ctx.thorough { 400 } else { 30 };
    for case in 0..n {
        let sbx = Sbx::new("hostile", case);
        let kind = if case == 0 { 6 } else if case == 1 { 7 } else { case % 6 };
        let mut second: Option<Vec<u8>> = None;
        let archive: Vec<u8> = match kind {
            0 => hostile_stream(&mut rng),
            1 | 2 => {
                let (a, _, _) = gen::gen_archive(&mut rng, 4, 200);
                match refdec::chunks(&a) {
                    Ok((mut cs, _)) if !cs.is_empty() => {
                        for _ in 0..rng.gen_range(1..4) {
                            let i = rng.gen_range(0..cs.len());
                            match rng.gen_range(0..6) {
                                0 | 1 => {
                                    let t = cs[i].0;
                                    cs[i].1 = hostile_payload(&mut rng, &t);
                                }
                                2 => {
                                    let c = cs[i].clone();
                                    cs.insert(i, c);
                                }
                                3 => {
                                    cs.remove(i);
                                    if cs.is_empty() {
                                        break;
                                    }
                                }
                                4 => {
                                    let j = rng.gen_range(0..cs.len());
                                    cs.swap(i, j);
                                }
                                _ => {
                                    let t: [u8; 4] = [*b"faCe", *b"faCl", *b"xATR", *b"fPRM", *b"PHSF", *b"ANXT", *b"AHED", *b"zzZz", *b"ZZZZ"][rng.gen_range(0..9)];
                                    let p = hostile_payload(&mut rng, &t);
                                    cs.insert(i, (t, p));
                                }
                            }
                        }
                        rebuild(&cs)
                    }
                    _ => a,
                }
            }
            3 => {
                let (mut a, _, _) = gen::gen_archive(&mut rng, 4, 200);
                if rng.gen_bool(0.5) {
                    let k = rng.gen_range(0..a.len());
                    a.truncate(k);
                } else {
                    for _ in 0..rng.gen_range(1..4) {
                        let k = rng.gen_range(0..a.len());
                        a[k] ^= 1 << rng.gen_range(0..8);
                    }
                }
                a
            }
            4 => special_entries(&mut rng),
            6 => {
                // well-formed key-derivation string with an extreme memory cost (4 TiB): the corpus witness of the known
                // finding C07-kdf-cost-unbounded
                let mut v = gen::SIG.to_vec();
                v.extend(frame(b"AHED", &[0; 8]));
                let mut h = vec![0u8, 0, 0, 0, 1, 1];
                h.extend_from_slice(b"enc.bin");
                v.extend(frame(b"FHED", &h));
                v.extend(frame(b"PHSF", b"$argon2id$v=19$m=4294967295,t=1,p=1$c2FsdHNhbHRzYWx0"));
                v.extend(frame(b"FDAT", &bytes(&mut rng, 48)));
                v.extend(frame(b"FEND", &[]));
                v.extend(frame(b"AEND", &[]));
                v
            }
            7 => {
                // an empty entry name and a 12 000-deep entry name (tree listing walks them)
                let mut v = gen::SIG.to_vec();
                v.extend(frame(b"AHED", &[0; 8]));
                let deep: Vec<u8> = std::iter::repeat(b"d/".iter().copied()).take(12_000).flatten().chain(*b"f").collect();
                for n in [&b""[..], &deep[..], b"/", b"a//b"] {
                    let mut h = vec![0u8, 0, 0, 0, 0, 0];
                    h.extend_from_slice(n);
                    v.extend(frame(b"FHED", &h));
                    v.extend(frame(b"FDAT", b"x"));
                    v.extend(frame(b"FEND", &[]));
                }
                v.extend(frame(b"AEND", &[]));
                v
            }
            _ => {
                // multipart: first part ends with ANXT; second part has a wrong number, is missing, or is hostile
                let (a, _, _) = gen::gen_archive(&mut rng, 3, 100);
                match refdec::chunks(&a) {
                    Ok((cs, _)) if cs.len() >= 2 => {
                        let body: Vec<_> = cs.iter().filter(|c| &c.0 != b"AHED" && &c.0 != b"AEND").cloned().collect();
                        let cut = rng.gen_range(0..=body.len());
                        let mut p1 = vec![(*b"AHED", vec![0u8; 8])];
                        p1.extend(body[..cut].iter().cloned());
                        p1.push((*b"ANXT", vec![]));
                        p1.push((*b"AEND", vec![]));
                        let num: u32 = [1u32, 0, 2, u32::MAX][rng.gen_range(0..4)];
                        let mut h = vec![0u8, 0, 0, 0];
                        h.extend_from_slice(&num.to_be_bytes());
                        let mut p2 = vec![(*b"AHED", h)];
                        p2.extend(body[cut..].iter().cloned());
                        if rng.gen_bool(0.3) {
                            p2.push((*b"ANXT", vec![]));
                        }
                        p2.push((*b"AEND", vec![]));
                        if rng.gen_bool(0.8) {
                            second = Some(rebuild(&p2));
                        }
                        rebuild(&p1)
                    }
                    _ => a,
                }
            }
        };
        let (name, cmd_arch) = if kind == 5 { ("h.part1.pna", "h.part1.pna") } else { ("h.pna", "h.pna") };
        std::fs::write(sbx.path(name), &archive).unwrap();
        if let Some(s) = &second {
            std::fs::write(sbx.path("h.part2.pna"), s).unwrap();
        }
        std::fs::write(sbx.path("extra.txt"), b"extra").unwrap();
        ctx.count(&format!("input:{}", ["hostile-stream", "field-mutated", "field-mutated", "truncated-or-flipped", "edge-metadata", "multipart", "kdf-cost", "empty-and-deep-names"][kind]));
        let all_cmds: Vec<Vec<&str>> = vec![
            vec!["list", cmd_arch],
            vec!["list", "-l", cmd_arch],
            vec!["list", "-l", "--solid", "--password=pw", cmd_arch],
            vec!["list", "--unstable", "--format", "jsonl", "--solid", cmd_arch],
            vec!["list", "--unstable", "--format", "tree", "--solid", "--password=pw", cmd_arch],
            vec!["list", "--unstable", "--format", "tree", "--classify", cmd_arch],
            vec!["list", "-l", "--numeric-owner", "--show-xattr", "--show-acl", "--show-private", "--solid", cmd_arch],
            vec!["extract", cmd_arch, "--out-dir", "o1", "--overwrite"],
            vec!["extract", cmd_arch, "--out-dir", "o2", "--overwrite", "--password=pw", "--keep-timestamp", "--keep-permission", "--keep-xattr"],
            vec!["experimental", "chunk", "list", cmd_arch],
            vec!["experimental", "chunk", "list", "-l", cmd_arch],
            vec!["split", cmd_arch, "--out-dir", "sp", "--overwrite", "--max-size", "120"],
            vec!["concat", "cc.pna", cmd_arch, "--overwrite"],
            vec!["strip", "--output", "st.pna", cmd_arch],
            vec!["strip", "--output", "st2.pna", "--unsolid", "--password=pw", cmd_arch],
            vec!["experimental", "chmod", "--output", "cm.pna", cmd_arch, "--", "600", "*"],
            vec!["experimental", "chown", "--output", "co.pna", "--keep-solid", cmd_arch, "root:root", "*"],
            vec!["experimental", "xattr", "get", cmd_arch, "*"],
            vec!["experimental", "xattr", "get", cmd_arch, "*", "--dump", "--encoding", "hex"],
            vec!["experimental", "xattr", "set", "--output", "xs.pna", cmd_arch, "--name", "user.k", "--value", "0x00", "*"],
            vec!["experimental", "acl", "get", "--unstable", cmd_arch, "*"],
            vec!["experimental", "acl", "set", "--unstable", "--output", "as.pna", cmd_arch, "-m", "u:alice:allow:r", "*"],
            vec!["experimental", "delete", "--unstable", "--output", "de.pna", cmd_arch, "dup"],
            vec!["experimental", "migrate", "--unstable", "--output", "mi.pna", "--unsolid", "--password=pw", cmd_arch],
            vec!["experimental", "update", "--unstable", cmd_arch, "extra.txt"],
            vec!["append", cmd_arch, "extra.txt"],
        ];
        let pick: Vec<usize> = if ctx.thorough || kind == 7 || (kind == 4 && case < 12) { (0..all_cmds.len()).collect() } else if kind == 6 { (0..all_cmds.len()).filter(|i| *i == 0 || all_cmds[*i][0] == "extract").collect() } else { (0..all_cmds.len()).filter(|i| (i + case) % 3 == 0).collect() };
        for ci in pick {
            let mut argv = vec!["--quiet"];
            argv.extend(all_cmds[ci].iter());
            // the in-place commands last (they change the input); restore it afterwards
            let r = if kind == 7 { crate::cli::run_pna_discard(&sbx, &sbx.root, &argv, 60) } else { run_pna(&sbx, &sbx.root, &argv, Some(b""), 20, &[]) };
            ctx.oracle_eval();
            ctx.count(&format!("cmd:{}", all_cmds[ci].iter().filter(|a| !a.starts_with('-') && !a.ends_with(".pna")).take(3).cloned().collect::<Vec<_>>().join(" ")));
            ctx.count(if r.ok() { "exit:ok" } else { "exit:error" });
            if r.crashed() || r.hung() {
                let what = if r.hung() { "a CLI command does not terminate on a hostile archive" } else { "a CLI command panicked or was killed by a signal on a hostile archive" };
                ctx.violation("C07", what, json!({"input_kind":kind,"kdf_cost_witness": kind == 6,"argv":argv,"run":r.brief(),"archive":hex(&archive[..archive.len().min(6000)]),"second_part":second.as_ref().map(|s| hex(&s[..s.len().min(3000)]))}));
            }
            if ci >= all_cmds.len() - 2 {
                std::fs::write(sbx.path(name), &archive).unwrap();
            }
        }
        ctx.case_free();
    }
}
