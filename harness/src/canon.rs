//! Canonical renderings — mirror of lean/PnaVerif/Model/Canon.lean.
use crate::gen::frame;
use crate::util::{err_kind, hex, hexw};
use libpna::prelude::*;
use libpna::*;
use std::io;

pub fn crc(b: &[u8]) -> u32 {
    let mut h = crc32fast::Hasher::new();
    h.update(b);
    h.finalize()
}

pub fn digest(b: &[u8]) -> String {
    format!("{}/{}", b.len(), crc(b))
}

pub fn data_s(d: &[Vec<u8>]) -> String {
    let all: Vec<u8> = d.iter().flatten().copied().collect();
    format!("{}/{}", d.len(), digest(&all))
}

fn opt_nat<T: std::fmt::Display>(o: Option<T>) -> String {
    o.map(|x| x.to_string()).unwrap_or("-".into())
}

pub fn extras_s<T>(ex: &[RawChunk<T>]) -> String
where
    RawChunk<T>: Chunk,
{
    let mut all = vec![];
    for c in ex {
        let ty = chunk_ty(c);
        all.extend(frame(&ty, c.data()));
    }
    format!("{}/{}", ex.len(), digest(&all))
}

pub fn chunk_ty<C: Chunk>(c: &C) -> [u8; 4] {
    libpna::verif::chunk_type_bytes(c.ty())
}

pub fn normal_s<T: AsRef<[u8]>>(e: &NormalEntry<T>) -> String
where
    RawChunk<T>: Chunk,
{
    let h = e.header();
    let m = e.metadata();
    let data = libpna::verif::normal_entry_data(e);
    let phsf = libpna::verif::normal_entry_phsf(e);
    let mut xa = vec![];
    for x in e.xattrs() {
        xa.extend_from_slice(&(x.name().len() as u32).to_be_bytes());
        xa.extend_from_slice(x.name().as_bytes());
        xa.extend_from_slice(&(x.value().len() as u32).to_be_bytes());
        xa.extend_from_slice(x.value());
    }
    format!(
        "N:{}.{}.{}.{}:{}:p={}:d={}:s={}:t={},{},{}:pm={}:x={}/{}:e={}",
        h.data_kind() as u8,
        h.compression() as u8,
        h.encryption() as u8,
        h.cipher_mode() as u8,
        hexw(h.path().as_str().as_bytes()),
        phsf.map(|p| format!("h{}", hex(p.as_bytes()))).unwrap_or("-".into()),
        data_s(&data),
        opt_nat(m.raw_file_size()),
        opt_nat(m.created().map(|d| d.as_secs())),
        opt_nat(m.modified().map(|d| d.as_secs())),
        opt_nat(m.accessed().map(|d| d.as_secs())),
        m.permission()
            .map(|p| format!("{},{},{},{},{}", p.uid(), hexw(p.uname().as_bytes()), p.gid(), hexw(p.gname().as_bytes()), p.permissions()))
            .unwrap_or("-".into()),
        e.xattrs().len(),
        digest(&xa),
        extras_s(e.extra_chunks()),
    )
}

pub fn solid_s<T: AsRef<[u8]>>(s: &SolidEntry<T>) -> String
where
    RawChunk<T>: Chunk,
{
    let data = libpna::verif::solid_entry_data(s);
    let phsf = libpna::verif::solid_entry_phsf(s);
    format!(
        "S:{}:p={}:d={}:e={}",
        hex(&s.header().to_bytes()),
        phsf.map(|p| format!("h{}", hex(p.as_bytes()))).unwrap_or("-".into()),
        data_s(&data),
        extras_s(s.extra_chunks()),
    )
}

pub fn entry_s<T: AsRef<[u8]>>(e: &ReadEntry<T>) -> String
where
    RawChunk<T>: Chunk,
{
    match e {
        ReadEntry::Normal(n) => normal_s(n),
        ReadEntry::Solid(s) => solid_s(s),
    }
}

/// marker error: the iterator yielded more items than the input can possibly hold (endless iteration)
pub const HANG: &str = "verif: iterator does not terminate";

pub fn end_s(r: &Result<(), io::Error>) -> String {
    match r {
        Ok(()) => "end=ok".into(),
        Err(e) if e.to_string() == HANG => "end=hang".into(),
        Err(e) => format!("end=err:{}", err_kind(e)),
    }
}

/// Drain `entries()` of the streaming reader until `None` or the first `Err`.
pub fn read_stream(bs: &[u8]) -> String {
    let mut out = vec![];
    let mut next = false;
    let end = (|| -> Result<(), io::Error> {
        let mut a = Archive::read_header(bs)?;
        for e in a.entries() {
            out.push(entry_s(&e?));
            if out.len() > bs.len() / 12 + 2 {
                return Err(io::Error::other(HANG));
            }
        }
        next = a.has_next_archive();
        Ok(())
    })();
    out.push(end_s(&end));
    out.push(format!("next={}", next as u8));
    out.join(" ")
}

/// The other iterators over the same reader, which the CLI and library users reach for: `entries_skip_solid()` and
/// `entries_with_password()`: (names returned before the end or the first error, ended without an error?)
pub fn read_other_iterators(bs: &[u8], password: Option<&str>) -> Vec<(&'static str, Vec<String>, bool)> {
    let mut v = vec![];
    for which in ["entries_skip_solid", "entries_with_password"] {
        let mut names = vec![];
        let end = (|| -> Result<(), io::Error> {
            let mut a = Archive::read_header(bs)?;
            let it: Box<dyn Iterator<Item = io::Result<NormalEntry>> + '_> = if which == "entries_skip_solid" { Box::new(a.entries_skip_solid()) } else { Box::new(a.entries_with_password(password)) };
            for e in it {
                names.push(e?.header().path().as_str().to_string());
                if names.len() > bs.len() / 12 + 2 { return Err(io::Error::other(HANG)); }
            }
            Ok(())
        })();
        v.push((which, names, end.is_ok()));
    }
    v
}

pub fn read_slice(bs: &[u8]) -> String {
    let mut out = vec![];
    let mut next = false;
    let end = (|| -> Result<(), io::Error> {
        let mut a = Archive::read_header_from_slice(bs)?;
        for e in a.entries_slice() {
            out.push(entry_s(&e?));
            if out.len() > bs.len() / 12 + 2 {
                return Err(io::Error::other(HANG));
            }
        }
        next = a.has_next_archive();
        Ok(())
    })();
    out.push(end_s(&end));
    out.push(format!("next={}", next as u8));
    out.join(" ")
}

fn raw_item_s<E: Entry>(e: E) -> String {
    let chunks = libpna::verif::entry_into_chunks(e);
    let mut all = vec![];
    for (t, d) in &chunks {
        all.extend(frame(t, d));
    }
    format!("R:{}/{}", chunks.len(), digest(&all))
}

pub fn raw_stream(bs: &[u8]) -> String {
    let mut out = vec![];
    let end = (|| -> Result<(), io::Error> {
        let mut a = Archive::read_header(bs)?;
        for e in a.raw_entries() {
            out.push(raw_item_s(e?));
            if out.len() > bs.len() / 12 + 2 {
                return Err(io::Error::other(HANG));
            }
        }
        Ok(())
    })();
    out.push(end_s(&end));
    out.join(" ")
}

pub fn raw_slice(bs: &[u8]) -> String {
    let mut out = vec![];
    let end = (|| -> Result<(), io::Error> {
        let mut a = Archive::read_header_from_slice(bs)?;
        for e in a.raw_entries_slice() {
            out.push(raw_item_s(e?));
            if out.len() > bs.len() / 12 + 2 {
                return Err(io::Error::other(HANG));
            }
        }
        Ok(())
    })();
    out.push(end_s(&end));
    out.join(" ")
}

/// chunk iterators: "n=<count> len=<total> crc=<crc> end|err <kind>"
pub fn chunks_stream(bs: &[u8]) -> String {
    let mut all = vec![];
    let mut n = 0;
    let end = (|| -> Result<(), io::Error> {
        for c in read_as_chunks(bs)? {
            let c = c?;
            all.extend(frame(&chunk_ty(&c), c.data()));
            n += 1;
            if n > bs.len() / 12 + 2 {
                return Err(io::Error::other(HANG));
            }
        }
        Ok(())
    })();
    format!(
        "n={} len={} crc={} {}",
        n,
        all.len(),
        crc(&all),
        match end {
            Ok(()) => "end".to_string(),
            Err(e) if e.to_string() == HANG => "hang".to_string(),
            Err(e) => format!("err {}", err_kind(&e)),
        }
    )
}

pub fn chunks_slice(bs: &[u8]) -> String {
    let mut all = vec![];
    let mut n = 0;
    let end = (|| -> Result<(), io::Error> {
        for c in read_chunks_from_slice(bs)? {
            let c = c?;
            all.extend(frame(&chunk_ty(&c), c.data()));
            n += 1;
            if n > bs.len() / 12 + 2 {
                return Err(io::Error::other(HANG));
            }
        }
        Ok(())
    })();
    format!(
        "n={} len={} crc={} {}",
        n,
        all.len(),
        crc(&all),
        match end {
            Ok(()) => "end".to_string(),
            Err(e) if e.to_string() == HANG => "hang".to_string(),
            Err(e) => format!("err {}", err_kind(&e)),
        }
    )
}

/// multipart via the streaming reader
pub fn read_multipart_stream(parts: &[Vec<u8>]) -> String {
    let mut out = vec![];
    let end = (|| -> Result<(), io::Error> {
        let mut a = Archive::read_header(&parts[0][..])?;
        let mut i = 0;
        loop {
            for e in a.entries() {
                out.push(entry_s(&e?));
                if out.len() > 100_000 {
                    return Err(io::Error::other(HANG));
                }
            }
            i += 1;
            if i >= parts.len() {
                return Ok(());
            }
            a = a.read_next_archive(&parts[i][..])?;
        }
    })();
    out.push(end_s(&end));
    out.join(" ")
}

pub fn read_multipart_slice(parts: &[Vec<u8>]) -> String {
    let mut out = vec![];
    let end = (|| -> Result<(), io::Error> {
        let mut a = Archive::read_header_from_slice(&parts[0][..])?;
        let mut i = 0;
        loop {
            for e in a.entries_slice() {
                out.push(entry_s(&e?));
                if out.len() > 100_000 {
                    return Err(io::Error::other(HANG));
                }
            }
            i += 1;
            if i >= parts.len() {
                return Ok(());
            }
            a = a.read_next_archive_from_slice(&parts[i][..])?;
        }
    })();
    out.push(end_s(&end));
    out.join(" ")
}
