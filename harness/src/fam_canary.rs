//! C20: commands that offer --overwrite, run WITHOUT it, with pre-existing objects ("canaries": file, empty file,
//! directory, symlink to a file, dangling symlink) at subsets of their output paths.
use crate::cli::{run_pna, snapshot, Node, Sbx};
use crate::ctx::Ctx;
use crate::util::{bytes, hexw, rng_for};
use rand::Rng;
use serde_json::json;
use std::collections::BTreeMap;

fn place(sbx: &Sbx, rel: &str, kind: usize) {
    let p = sbx.path(rel);
    let _ = std::fs::create_dir_all(p.parent().unwrap());
    match kind {
        0 => std::fs::write(&p, b"CANARY-CONTENT").unwrap(),
        1 => std::fs::write(&p, b"").unwrap(),
        2 => std::fs::create_dir_all(&p).unwrap(),
        3 => { std::fs::write(sbx.path("canary-target"), b"TARGET").unwrap(); std::os::unix::fs::symlink(sbx.path("canary-target"), &p).unwrap() }
        _ => std::os::unix::fs::symlink(sbx.path("no-such-target"), &p).unwrap(),
    }
}
const KINDS: [&str; 5] = ["file", "empty file", "directory", "symlink to file", "dangling symlink"];

fn same(a: &Node, b: Option<&Node>) -> bool {
    match (a, b) {
        (Node::File { content: c1, ino: i1, mtime: m1, .. }, Some(Node::File { content: c2, ino: i2, mtime: m2, .. })) => c1 == c2 && i1 == i2 && m1 == m2,
        (Node::Dir { .. }, Some(Node::Dir { .. })) => true,
        (Node::Symlink { target: t1 }, Some(Node::Symlink { target: t2 })) => t1 == t2,
        _ => false,
    }
}

pub fn canary(ctx: &mut Ctx) {
    let mut rng = rng_for(ctx.seed, "canary");
    ctx.rule = "commands {create, create --split, split (with/without --out-dir, multi-part and single-part results), concat, extract, stdio -x} run WITHOUT --overwrite after placing canaries (file, empty file, directory, symlink to a file, dangling symlink) \
                at subsets of the output paths the run produces (archive path, every partN path, rename target of a single-part result, extraction destinations incl. beneath existing directories and through an existing directory symlink); \
                quick = each single path + random subsets, thorough = all subsets up to size 3; every pre-existing object is compared before/after (content, inode, mtime, kind, link target) and a conflict must be reported as an error; \
                non-trivial = at least one canary; distinct by (command, canary set)".into();
    let n = if ctx.thorough { 700 } else { 90 };
    for case in 0..n {
        let sbx = Sbx::new("canary", case);
        // inputs
        std::fs::create_dir_all(sbx.path("t/d")).unwrap();
        std::fs::write(sbx.path("t/a.bin"), bytes(&mut rng, 700)).unwrap();
        std::fs::write(sbx.path("t/d/b.txt"), b"hello").unwrap();
        std::fs::write(sbx.path("t/c"), bytes(&mut rng, 300)).unwrap();
        let cmd = case % 7;
        // prepare input archives for commands that read one
        let mk = |args: &[&str]| run_pna(&sbx, &sbx.root, args, None, 60, &[]);
        let (argv, outputs): (Vec<String>, Vec<String>) = match cmd {
            0 => (vec!["--quiet", "create", "out.pna", "-r", "t"].iter().map(|s| s.to_string()).collect(), vec!["out.pna".into()]),
            1 => (vec!["--quiet", "create", "out.pna", "-r", "t", "--split", "400", "--store"].iter().map(|s| s.to_string()).collect(), vec!["out.pna".into(), "out.part1.pna".into(), "out.part2.pna".into(), "out.part3.pna".into(), "out.part4.pna".into()]),
            2 => { mk(&["--quiet", "create", "in.pna", "-r", "t", "--store"]); (vec!["--quiet", "split", "in.pna", "--max-size", "400"].iter().map(|s| s.to_string()).collect(), vec!["in.part1.pna".into(), "in.part2.pna".into(), "in.part3.pna".into(), "in.part4.pna".into()]) }
            3 => { mk(&["--quiet", "create", "in.pna", "-r", "t", "--store"]); (vec!["--quiet", "split", "in.pna", "--max-size", "400", "--out-dir", "o"].iter().map(|s| s.to_string()).collect(), vec!["o/in.part1.pna".into(), "o/in.part2.pna".into(), "o/in.part3.pna".into()]) }
            4 => { mk(&["--quiet", "create", "in.pna", "-r", "t", "--store"]); (vec!["--quiet", "split", "in.pna", "--max-size", "100000", "--out-dir", "o"].iter().map(|s| s.to_string()).collect(), vec!["o/in.part1.pna".into(), "o/in.pna".into()]) }
            5 => { mk(&["--quiet", "create", "in.pna", "-r", "t", "--store", "--split", "500"]); (vec!["--quiet", "concat", "out.pna", "in.part1.pna"].iter().map(|s| s.to_string()).collect(), vec!["out.pna".into()]) }
            _ => { mk(&["--quiet", "create", "in.pna", "-r", "t", "--keep-dir"]); (vec!["--quiet", "extract", "in.pna", "--out-dir", "x"].iter().map(|s| s.to_string()).collect(), vec!["x/t/a.bin".into(), "x/t/d/b.txt".into(), "x/t/c".into(), "x/t/d".into(), "x/t".into()]) }
        };
        let stdio = cmd == 6 && case % 2 == 1;
        // choose canaries
        let mut chosen: Vec<(String, usize)> = vec![];
        let single = case / 7 < outputs.len() * 5;
        if single {
            let idx = (case / 7) % outputs.len();
            chosen.push((outputs[idx].clone(), (case / 7 / outputs.len()) % 5));
        } else {
            for o in &outputs { if rng.gen_bool(0.4) { chosen.push((o.clone(), rng.gen_range(0..5))); } }
            if chosen.is_empty() { chosen.push((outputs[0].clone(), rng.gen_range(0..5))); }
        }
        // a directory canary at a directory destination is not a conflict for extract; skip nonsensical combos
        if cmd == 6 { chosen.retain(|(p, k)| !((p == "x/t" || p == "x/t/d") && *k != 2)); if chosen.is_empty() { chosen.push(("x/t/a.bin".into(), case % 5)); } }
        let mut placed: Vec<(String, usize)> = vec![];
        for (p, k) in &chosen {
            if placed.iter().any(|(q, _)| p.starts_with(&format!("{q}/")) || q.starts_with(&format!("{p}/")) || q == p) { continue; }
            place(&sbx, p, *k);
            placed.push((p.clone(), *k));
        }
        let before = snapshot(&sbx.root);
        let r = if stdio {
            let data = std::fs::read(sbx.path("in.pna")).unwrap();
            run_pna(&sbx, &sbx.root, &["--quiet", "experimental", "stdio", "--extract", "--out-dir", "x"], Some(&data), 60, &[])
        } else {
            let a: Vec<&str> = argv.iter().map(|s| s.as_str()).collect();
            run_pna(&sbx, &sbx.root, &a, None, 60, &[])
        };
        let after = snapshot(&sbx.root);
        let attrs = json!({"argv": if stdio { vec!["experimental stdio --extract --out-dir x".to_string()] } else { argv.clone() }, "canaries": placed.iter().map(|(p, k)| format!("{p} ({})", KINDS[*k])).collect::<Vec<_>>()});
        ctx.count(&format!("cmd:{}", ["create", "create --split", "split", "split --out-dir", "split single-part", "concat", "extract"][cmd]));
        ctx.oracle_eval();
        ctx.case_free();
        if r.crashed() || r.hung() { ctx.violation("C07", "command crashed or hung", json!({"case":attrs,"run":r.brief()})); continue; }
        // every object that existed before is untouched
        let mut harmed = vec![];
        for (p, n) in before.iter() {
            if p.starts_with("tmp") { continue; }
            if !same(n, after.get(p)) { harmed.push(p.clone()); }
        }
        // directories may legitimately gain children; `same` ignores that
        if !harmed.is_empty() {
            ctx.violation("C20", "an existing file was replaced, truncated or modified although --overwrite was not given", json!({"case":attrs,"harmed":harmed,"run":r.brief()}));
        }
        // a conflict must be reported: a canary that blocks an output path the run needs
        let blocking = placed.iter().any(|(p, k)| {
            let is_out = match cmd { 1 => p != "out.part4.pna" || after.contains_key("out.part4.pna") && *k != 2, _ => true };
            // dangling symlink at a plain archive path does not "exist" (the new file is created at the link target): not a conflict for create/concat
            // … and for a multi-part `create --split` the base path is not written at all
            let dangling_ok = *k == 4 && (matches!(cmd, 0 | 5) || (cmd == 1 && p == "out.pna" && after.contains_key("out.part2.pna")));
            // directory canary at a directory destination is fine
            let dir_dir = cmd == 6 && *k == 2 && (p == "x/t" || p == "x/t/d");
            is_out && !dangling_ok && !dir_dir
        });
        let needed = match cmd {
            1 => placed.iter().any(|(p, _)| p == "out.pna" || p == "out.part1.pna" || p == "out.part2.pna"),
            2 => placed.iter().any(|(p, _)| p == "in.part1.pna" || p == "in.part2.pna"),
            3 => placed.iter().any(|(p, _)| p == "o/in.part1.pna" || p == "o/in.part2.pna"),
            _ => true,
        };
        if blocking && needed && r.ok() {
            ctx.violation("C20", "a conflict with an existing object was not reported as an error", json!({"case":attrs,"run":r.brief()}));
        }
        let _ = hexw(b"");
    }
}
