#!/bin/bash
# usage: mutcheck.sh <patch.diff> <Cxx> [Cyy ...]   — apply a seeded change to /repo, run the quick checks, revert.
set -u
patch="$1"; shift
cd /repo || exit 2
if ! git diff --quiet; then echo "repo dirty"; exit 2; fi
git apply "$patch" || { echo "patch does not apply"; exit 2; }
cd /verif
for p in "$@"; do
  out=$(./check "$p" --tier quick 2>&1)
  rc=$?
  echo "== $p rc=$rc"
  echo "$out" | grep -E "^VIOLATION|^  \(|KNOWN|\[check\]" | head -8
done
git -C /repo checkout -- . && git -C /repo clean -fdq -- lib cli pna 2>/dev/null
# restore the unmutated builds
(cd /verif/harness && cargo build --offline >/dev/null 2>&1)
(RUSTFLAGS="--cfg pna_verif" cargo build --offline --config 'profile.dev.package."*".opt-level=2' --manifest-path /repo/Cargo.toml -p portable-network-archive --bin pna --target-dir /verif/build/repo-target >/dev/null 2>&1)
