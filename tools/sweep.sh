#!/bin/bash
# usage: tools/sweep.sh [tier] [seed ...]   (default: quick, seed 1)
# Runs every check of MANIFEST.json on the current /repo tree and prints one line per property; a non-zero exit status or a
# VIOLATION line of any check makes the sweep exit 1.  Evidence files are rewritten by each run (commit only those of seed 1).
cd /verif || exit 2
tier=${1:-quick}; shift
seeds=("$@"); [ ${#seeds[@]} -eq 0 ] && seeds=(1)
bad=0
for s in "${seeds[@]}"; do
  for p in C01 C02 C03 C04 C05 C06 C07 C08 C09 C10 C11 C12 C13 C14 C15 C16 C17 C18 C19 C20; do
    t0=$(date +%s)
    out=$(VERIF_SEED=$s ./check $p --tier $tier 2>&1); rc=$?
    v=$(echo "$out" | grep -c '^VIOLATION'); k=$(echo "$out" | grep -c '^KNOWN-FINDING')
    echo "seed=$s $p rc=$rc violations=$v known=$k $(( $(date +%s) - t0 ))s"
    if [ $rc -ne 0 ] || [ $v -ne 0 ]; then bad=1; echo "$out" | grep -A1 '^VIOLATION' | head -6; fi
  done
done
exit $bad
