#!/bin/bash
# usage: confirm_mutant.sh <Cxx> <A|B> [--suite]
# Confirms a seeded change in its scratch worktree /tmp/mut-<Cxx>: the demo passes on the clean tree, the patch
# applies and compiles, the demo fails with it; with --suite also runs the whole existing test suite with the patch.
set -u
P=$1; V=$2; SUITE=${3:-}
WT=/tmp/mut6-$P; OUT=/tmp/mut6-$P-out/$V
export CARGO_TARGET_DIR=$WT/target CARGO_NET_OFFLINE=true
cd $WT || exit 2
git checkout -q -- . ; git clean -fdq -- lib cli pna
run_demo() {
  local rc=0
  if [ -f $OUT/demo.rs ]; then
    if grep -q -E "portable_network_archive|assert_cmd|env!\(\"CARGO_BIN_EXE" $OUT/demo.rs; then
      cp $OUT/demo.rs cli/tests/demo_seeded.rs; cargo test --offline -p portable-network-archive --test demo_seeded >$OUT/confirm_demo_$1.log 2>&1; rc=$?; rm -f cli/tests/demo_seeded.rs
    else
      cp $OUT/demo.rs lib/tests/demo_seeded.rs; cargo test --offline -p libpna --test demo_seeded >$OUT/confirm_demo_$1.log 2>&1; rc=$?; rm -f lib/tests/demo_seeded.rs
    fi
  elif [ -f $OUT/demo.sh ]; then
    cargo build --offline -p portable-network-archive --bin pna >/dev/null 2>&1
    bash $OUT/demo.sh $WT/target/debug/pna >$OUT/confirm_demo_$1.log 2>&1; rc=$?
  else
    echo "no demo"; rc=99
  fi
  return $rc
}
run_demo clean; c=$?
git apply $OUT/patch.diff || { echo "$P/$V: PATCH DOES NOT APPLY"; exit 1; }
cargo build --offline --workspace >$OUT/confirm_build.log 2>&1 || { echo "$P/$V: DOES NOT COMPILE"; git checkout -q -- .; exit 1; }
run_demo mutant; m=$?
s="skipped"
if [ "$SUITE" = "--suite" ]; then
  cargo test --workspace --no-fail-fast --offline 2>&1 | grep -E "^test .* (ok|FAILED)$" | sort > $OUT/confirm_suite.txt
  nf=$(grep -c "FAILED$" $OUT/confirm_suite.txt); np=$(grep -c " ok$" $OUT/confirm_suite.txt)
  s="passed=$np failed=$nf"
fi
git checkout -q -- . ; git clean -fdq -- lib cli pna
echo "$P/$V: demo clean rc=$c, demo with change rc=$m, suite: $s"
