#!/bin/bash
# usage: tools/seeded_run.sh [id ...]   (default: every /verif/seeded/<id>)
# Applies each seeded change to /repo, runs the checks listed in its meta.json (quick tier), restores /repo,
# and records the outcome in seeded/<id>/last_run.json.  /repo's tracked tree must be clean.
cd /verif || exit 2
if [ -n "$(git -C /repo status --porcelain --untracked-files=no)" ]; then echo "/repo has uncommitted changes"; exit 2; fi
ids=("$@"); [ ${#ids[@]} -eq 0 ] && ids=($(ls seeded))
for id in "${ids[@]}"; do
  d=seeded/$id
  checks=$(python3 -c "import json;print(' '.join(json.load(open('$d/meta.json'))['detected_by_checks']))")
  git -C /repo apply /verif/$d/patch.diff || { echo "$id: patch does not apply"; continue; }
  res="{"
  first=1
  for c in $checks; do
    out=$(./check $c 2>&1); rc=$?
    nv=$(echo "$out" | grep -c "^VIOLATION property=$c")
    nf=$(echo "$out" | grep "^VIOLATION property=$c" | grep -c "no-failing-input-found")
    what=$(python3 - "$c" <<'PY'
import json,sys,glob
c=sys.argv[1]
fs=sorted(glob.glob(f"/verif/replays/{c}-quick-1-*.json"))
w=""
if fs:
    try:
        d=json.load(open(fs[0])); w=(d.get("what") or d.get("kind") or "")[:160]
    except Exception as e: w=""
print(json.dumps(w))
PY
)
    [ $first -eq 0 ] && res="$res,"; first=0
    res="$res\"$c\":{\"exit\":$rc,\"violation_lines\":$nv,\"without_failing_input\":$nf,\"first_report\":$what}"
    echo "$id: check $c exit=$rc violations=$nv (no-failing-input: $nf) $what"
  done
  res="$res}"
  git -C /repo checkout -- .
  echo "$res" > $d/last_run.json
done
# restore the unmutated builds
(cd /verif/harness && cargo build --offline >/dev/null 2>&1)
(RUSTFLAGS="--cfg pna_verif" cargo build --offline --config 'profile.dev.package."*".opt-level=2' --manifest-path /repo/Cargo.toml -p portable-network-archive --bin pna --target-dir /verif/build/repo-target >/dev/null 2>&1)
