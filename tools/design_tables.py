#!/usr/bin/env python3
"""Regenerates the generated tables of DESIGN.md §12 (between <!-- BEGIN x --> / <!-- END x --> markers)
from checklib/props.py, evidence/*.json, known_findings.jsonl and seeded/*/meta.json."""
import json, sys, glob, re, os
sys.path.insert(0, '/verif')
from checklib.props import PROPS

def status():
    rows = ["| Property | Props modules | obligations (theorems + examples, all discharged) | families | runs against |", "|---|---|---|---|---|"]
    for pid in sorted(PROPS):
        p = PROPS[pid]
        try:
            cov = json.load(open(f'/verif/evidence/{pid}.json'))['coverage']
            ob = cov['obligations']
        except Exception:
            ob = '?'
        mods = [m.split('.')[-1] for m in p['lean'] if not m.endswith('Consts')]
        rows.append(f"| {pid} | {', '.join(mods)} | {ob} | {', '.join(p['families'])} | {'binary + library' if p.get('cli') else 'library'} |")
    return "\n".join(rows)

def fixes():
    rows = ["| Property | commit | what failed |", "|---|---|---|"]
    for l in open('/verif/known_findings.jsonl'):
        d = json.loads(l)
        if d['status'] != 'fixed':
            continue
        w = d['what']
        w = re.sub(r'^fixed: property=C\d\d ', '', w)
        w = re.sub(r'^[0-9a-f]{8} ', '', w)
        rows.append(f"| {d['property']} | `{d['commit']}` | {w.replace('|', '/')} |")
    return "\n".join(rows)

def known():
    out = []
    for l in open('/verif/known_findings.jsonl'):
        d = json.loads(l)
        if d['status'] == 'known':
            out.append(f"* **{d.get('id', '')}** ({d['property']}): {d['what']}")
    return "\n".join(out) if out else "(none)"

def seeded():
    rows = ["| id | change | caught by | last run of the listed checks (quick tier) |", "|---|---|---|---|"]
    for f in sorted(glob.glob('/verif/seeded/*/meta.json')):
        m = json.load(open(f))
        last = ""
        lr = os.path.join(os.path.dirname(f), 'last_run.json')
        if os.path.exists(lr):
            try:
                r = json.load(open(lr))
                parts = []
                for c, v in r.items():
                    kind = "no report" if v['violation_lines'] == 0 else ("proof/correspondence only" if v['violation_lines'] == v['without_failing_input'] else "concrete replay")
                    parts.append(f"{c}: {kind}")
                last = "; ".join(parts)
            except Exception:
                last = "?"
        title = m['title'].split('—', 1)[-1].strip() if '—' in m['title'] else m['title']
        rows.append(f"| {m['id']} | {title[:150].replace('|', '/')} | {', '.join(m['detected_by_checks'])} | {last} |")
    return "\n".join(rows)

GEN = {"status": status, "fixes": fixes, "known": known, "seeded": seeded}
s = open('/verif/DESIGN.md').read()
for k, f in GEN.items():
    b, e = f"<!-- BEGIN {k} -->", f"<!-- END {k} -->"
    if b in s and e in s:
        i, j = s.index(b) + len(b), s.index(e)
        s = s[:i] + "\n" + f() + "\n" + s[j:]
    else:
        print("marker missing:", k)
open('/verif/DESIGN.md', 'w').write(s)
